"""struct.pack/unpack with symbolic floats (f, d, e), `s`, `c`, `?` kept symbolic.

f: fp.to_ieee_bv(to_fp32(RNE, x)) split into byte terms; OverflowError branch when a finite
double rounds to +-inf (CPython behaviour).  unpack reassembles the BV (bytes that are
BV2Int(Extract(..)) are unwrapped instead of going through Int2BV) and widens to Float64.
Ints stay with CrossHair's own model (int.to_bytes / int.from_bytes).
Only the IEEE float model is supported; real-model floats are realised by the stock code.
"""
import struct

import z3
from crosshair.core import _PATCH_REGISTRATIONS, realize, deep_realize
from crosshair.libimpl import structlib as S
from crosshair.libimpl.builtinslib import (SymbolicInt, SymbolicBool, SymbolicBytes, SymbolicByteArray,
                                           PreciseIeeeSymbolicFloat, SymbolicFloat)
from crosshair.statespace import context_statespace
from crosshair.tracers import NoTracing, ResumedTracing

F16, F32, F64 = z3.Float16(), z3.Float32(), z3.Float64()
_SORT = {'e': F16, 'f': F32, 'd': F64}
_orig_pack, _orig_unpack = S._pack, S._unpack


def _is_sym(x):
    return isinstance(x, (SymbolicInt, SymbolicFloat, SymbolicBytes, SymbolicByteArray, SymbolicBool))


def _fp64(v):
    if isinstance(v, PreciseIeeeSymbolicFloat):
        return v.var
    if isinstance(v, SymbolicBool):
        return z3.If(v.var, z3.FPVal(1.0, F64), z3.FPVal(0.0, F64))
    if isinstance(v, SymbolicInt):
        return z3.fpToFP(z3.RNE(), z3.ToReal(v.var), F64)
    if isinstance(v, SymbolicFloat):
        return None
    if isinstance(v, (int, float)):
        return z3.FPVal(float(v), F64)
    return None


def _bytes_of_bv(bv, n, little):
    bs = [SymbolicInt(z3.BV2Int(z3.Extract(8 * i + 7, 8 * i, bv), is_signed=False)) for i in range(n)]
    return bs if little else bs[::-1]


def _to_bv8(b):
    if isinstance(b, SymbolicInt):
        v = b.var
        if z3.is_app(v) and v.decl().kind() == z3.Z3_OP_BV2INT and v.arg(0).size() == 8:
            return v.arg(0)
        return z3.Int2BV(v, 8)
    return z3.BitVecVal(int(b), 8)


def _layout(fmt_r):
    """-> (prefix, items, little) or None when native alignment would matter."""
    prefix, items = S._parse_format(S._normalize_format_for_parse(fmt_r))
    if prefix in '@=':
        std = '<' + fmt_r.lstrip('@=')
        if struct.calcsize(fmt_r) != struct.calcsize(std):
            return None
        prefix = '<'
    return prefix, items, prefix == '<'


def pack(fmt, /, *args):
    with NoTracing():
        fmt_r = realize(fmt)
        if not any(_is_sym(a) for a in args):
            return struct.pack(fmt_r, *args)
        lay = _layout(fmt_r)
        if lay is None:
            with ResumedTracing():
                return _orig_pack(fmt_r, *args)
        prefix, items, little = lay
        n_args = sum(1 for fc, _ in items if fc != 'x')
        if len(args) != n_args:
            raise struct.error(f'pack expected {n_args} items for packing (got {len(args)})')
        out = []
        ai = 0
        for fc, count in items:
            if fc == 'x':
                out.extend([0] * count)
                continue
            v = args[ai]
            ai += 1
            if fc in 'fde' and _is_sym(v):
                x = _fp64(v)
                if x is None:
                    out.extend(list(struct.pack(prefix + fc, realize(v))))
                    continue
                sort = _SORT[fc]
                n = {'e': 2, 'f': 4, 'd': 8}[fc]
                if fc != 'd':
                    space = context_statespace()
                    xs = z3.fpFPToFP(z3.RNE(), x, sort)
                    if space.smt_fork(z3.And(z3.fpIsInf(xs), z3.Not(z3.fpIsInf(x)))):
                        raise OverflowError('float too large to pack with %s format' % fc)
                    x = xs
                out.extend(_bytes_of_bv(z3.fpToIEEEBV(x), n, little))
            elif fc in 'fde':
                if not isinstance(v, (int, float)):
                    raise struct.error('required argument is not a float')
                out.extend(list(struct.pack(prefix + fc, v)))
            elif fc == 's':
                with ResumedTracing():
                    if not isinstance(v, (bytes, bytearray)):
                        raise struct.error("argument for 's' must be a bytes object")
                    b = list(v)[:count]
                out.extend(b + [0] * (count - len(b)))
            elif fc == '?':
                with ResumedTracing():
                    out.append(1 if v else 0)
            else:
                with ResumedTracing():
                    part = _orig_pack(prefix + fc, v)
                    out.extend(list(part))
        if any(isinstance(b, SymbolicInt) for b in out):
            return SymbolicBytes(out)
        return bytes(out)


def unpack(fmt, buffer, /):
    with NoTracing():
        fmt_r = deep_realize(fmt)
        if not isinstance(buffer, (SymbolicBytes, SymbolicByteArray)):
            if isinstance(buffer, (list, tuple)):
                raise TypeError("a bytes-like object is required, not '%s'" % type(buffer).__name__)
            return struct.unpack(fmt_r, buffer)
        lay = _layout(fmt_r)
        if lay is None:
            with ResumedTracing():
                return _orig_unpack(fmt_r, buffer)
        prefix, items, little = lay
        need = S._struct_items_total_size(prefix, items)
        with ResumedTracing():
            if len(buffer) != need:
                raise struct.error(f'unpack requires a buffer of {need} bytes')
        res = []
        off = 0
        for fc, count in items:
            size = S._get_item_size(fc, count, prefix)
            with ResumedTracing():
                chunk = buffer[off:off + size]
            off += size
            if fc == 'x':
                continue
            if fc in 'fde':
                with ResumedTracing():
                    bs = list(chunk)
                bvs = [_to_bv8(b) for b in bs]
                if little:
                    bvs = bvs[::-1]
                bv = z3.simplify(z3.Concat(*bvs))
                x = z3.fpBVToFP(bv, _SORT[fc])
                if fc != 'd':
                    x = z3.fpFPToFP(z3.RNE(), x, F64)
                res.append(PreciseIeeeSymbolicFloat(x))
            elif fc in 's':
                with ResumedTracing():
                    res.append(bytes(chunk) if not isinstance(chunk, (SymbolicBytes, SymbolicByteArray)) else chunk)
            elif fc == 'c':
                res.append(chunk)
            elif fc == '?':
                with ResumedTracing():
                    res.append(chunk[0] != 0)
            else:
                with ResumedTracing():
                    res.append(_orig_unpack(prefix + fc, chunk)[0])
        return tuple(res)


def unpack_from(fmt, /, buffer, offset=0):
    with NoTracing():
        fmt_r = deep_realize(fmt)
        size = struct.calcsize(fmt_r)
    return unpack(fmt_r, buffer[offset:offset + size])


def install():
    _PATCH_REGISTRATIONS[struct.pack] = pack
    _PATCH_REGISTRATIONS[struct.unpack] = unpack
    _PATCH_REGISTRATIONS[struct.unpack_from] = unpack_from
