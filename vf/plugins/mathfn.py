"""math.sqrt on symbolic floats: real model -> fresh r >= 0 with r*r == x (|d| when x is syntactically d*d);
IEEE model -> fp.sqrt.  math.degrees / radians on IEEE symbolic floats: the same multiply/divide CPython does."""
import math

import z3
from crosshair.core import _PATCH_REGISTRATIONS
from crosshair.libimpl.builtinslib import (RealBasedSymbolicFloat, PreciseIeeeSymbolicFloat, SymbolicInt)
from crosshair.statespace import context_statespace
from crosshair.tracers import NoTracing, ResumedTracing

F64 = z3.Float64()
_sqrt, _deg, _rad = math.sqrt, math.degrees, math.radians
# CPython: degrees(x) = x * (180.0 / pi); radians(x) = x * (pi / 180.0)
_DEG = 180.0 / math.pi
_RAD = math.pi / 180.0


def sqrt(x):
    with NoTracing():
        if isinstance(x, SymbolicInt):
            x = RealBasedSymbolicFloat(z3.ToReal(x.var))
        if isinstance(x, RealBasedSymbolicFloat):
            sp = context_statespace()
            if sp.smt_fork(x.var < 0):
                raise ValueError('math domain error')
            r = RealBasedSymbolicFloat('sqrt' + sp.uniq())
            sp.add(z3.And(r.var >= 0, r.var * r.var == x.var))
            return r
        if isinstance(x, PreciseIeeeSymbolicFloat):
            sp = context_statespace()
            if sp.smt_fork(z3.fpLT(x.var, z3.FPVal(0.0, F64))):
                raise ValueError('math domain error')
            return PreciseIeeeSymbolicFloat(z3.fpSqrt(z3.RNE(), x.var))
        return _sqrt(x)


def degrees(x):
    with NoTracing():
        if isinstance(x, PreciseIeeeSymbolicFloat):
            return PreciseIeeeSymbolicFloat(z3.fpMul(z3.RNE(), x.var, z3.FPVal(_DEG, F64)))
        if isinstance(x, RealBasedSymbolicFloat):
            return RealBasedSymbolicFloat(x.var * z3.RealVal(repr(_DEG)))
        return _deg(x)


def radians(x):
    with NoTracing():
        if isinstance(x, PreciseIeeeSymbolicFloat):
            return PreciseIeeeSymbolicFloat(z3.fpMul(z3.RNE(), x.var, z3.FPVal(_RAD, F64)))
        if isinstance(x, RealBasedSymbolicFloat):
            return RealBasedSymbolicFloat(x.var * z3.RealVal(repr(_RAD)))
        return _rad(x)


_orig_int = None


def _ieee_int(x):
    """int(x) for an IEEE symbolic float: truncation through fp.to_sbv (RTZ) when |x| < 2^62, else the stock real-valued term."""
    with NoTracing():
        sp = context_statespace()
        if sp.smt_fork(z3.fpIsNaN(x.var)):
            raise ValueError('cannot convert float NaN to integer')
        if sp.smt_fork(z3.fpIsInf(x.var)):
            raise OverflowError('cannot convert float infinity to integer')
        lim = z3.FPVal(2.0 ** 62, F64)
        if sp.smt_fork(z3.And(z3.fpLT(x.var, lim), z3.fpGT(x.var, z3.fpNeg(lim))), probability_true=0.99):
            return SymbolicInt(z3.BV2Int(z3.fpToSBV(z3.RTZ(), x.var, z3.BitVecSort(64)), is_signed=True))
        return SymbolicInt(z3.ToInt(z3.fpToReal(z3.fpRoundToIntegral(z3.RTZ(), x.var))))


def sym_int(*a, **kw):
    """builtin int(): stock CrossHair realises symbolic floats; keep them symbolic."""
    with NoTracing():
        if len(a) == 1 and not kw:
            v = a[0]
            if isinstance(v, PreciseIeeeSymbolicFloat):
                return _ieee_int(v)
            if isinstance(v, RealBasedSymbolicFloat):
                with ResumedTracing():
                    return v.__int__()
        from crosshair.util import CrossHairValue
        if not any(isinstance(v, CrossHairValue) for v in a) and not kw:
            return int(*a)
    return _orig_int(*a, **kw)


def install():
    global _orig_int
    _orig_int = _PATCH_REGISTRATIONS[int]
    _PATCH_REGISTRATIONS[int] = sym_int
    PreciseIeeeSymbolicFloat.__int__ = lambda self: _ieee_int(self)
    _PATCH_REGISTRATIONS[math.sqrt] = sqrt
    RealBasedSymbolicFloat.sqrt = lambda self: sqrt(self)      # np.sqrt on object arrays (np.linalg.norm) calls .sqrt()
    _PATCH_REGISTRATIONS[math.degrees] = degrees
    _PATCH_REGISTRATIONS[math.radians] = radians
