"""Demonstration for the C02 finding fixed in /repo 7e31d97: a MISC_VALUE_UPDATED notification from the firmware that arrives
while the parameter TOC is still being downloaded.

Run with PYTHONPATH=<tree>:  python findings/c02_value_update_during_toc_download.py
Exit 1 on the defective behaviour (the all-updated test is evaluated on the partial table: fully_connected is signalled before
connected, with parameters lacking values), exit 0 otherwise."""
import struct
import sys
from unittest.mock import MagicMock

from cflib.crazyflie import Crazyflie
from cflib.crazyflie.param import ParamTocElement, MISC_CHANNEL, MISC_VALUE_UPDATED
from cflib.crtp.crtpstack import CRTPPacket, CRTPPort

cf = Crazyflie(rw_cache='/nonexistent')
cf.link = MagicMock()
cf.platform.get_protocol_version = lambda: 10
events = []
cf.connected.add_callback(lambda uri: events.append('connected'))
cf.fully_connected.add_callback(lambda uri: events.append('fully_connected'))
cf.connection_requested.call('fake://0')          # what open_link does first: the parameter subsystem resets its state
p = cf.param
p._useV2 = True

# the TOC download is under way: the first of three entries has arrived
e = ParamTocElement()
e.ident, e.group, e.name, e.ctype, e.pytype, e.access = 0, 'g', 'a', 'uint8_t', '<B', ParamTocElement.RW_ACCESS
p.toc.add_element(e)

# the firmware announces a new value of that parameter on its own
pk = CRTPPacket()
pk.set_header(CRTPPort.PARAM, MISC_CHANNEL)
pk.data = struct.pack('<BHB', MISC_VALUE_UPDATED, 0, 42)
p._param_updated(pk)

print('events while the table is incomplete:', events, ' values:', p.values)
sys.exit(1 if 'fully_connected' in events else 0)
