"""Demonstration for the C04 finding "two outstanding misc requests of the same kind for the same parameter".

Run with PYTHONPATH=<tree>:  python findings/c04_same_param_misc.py
Exit 1 on the defective behaviour (both callbacks fire on the first reply, the second reply reaches nobody, so the
second persistent_store is told the status of the first), exit 0 when every reply reaches exactly the request it answers."""
import struct
import sys
from unittest.mock import MagicMock

from cflib.crazyflie import Crazyflie
from cflib.crazyflie.param import Param, ParamTocElement, MISC_CHANNEL, MISC_PERSISTENT_STORE
from cflib.crtp.crtpstack import CRTPPacket, CRTPPort

cf = Crazyflie(rw_cache='/nonexistent')
cf.link = MagicMock()
p = cf.param
p.param_updater.send_param_misc = lambda pk: None          # transport is not the subject here
e = ParamTocElement()
e.ident, e.group, e.name, e.ctype, e.pytype, e.access = 5, 'g', 'x', 'uint8_t', '<B', ParamTocElement.RW_ACCESS
e.mark_persistent()
p.toc.add_element(e)

got = []
p.persistent_store('g.x', lambda name, ok: got.append(('first', ok)))
p.persistent_store('g.x', lambda name, ok: got.append(('second', ok)))


def reply(status):
    pk = CRTPPacket()
    pk.set_header(CRTPPort.PARAM, MISC_CHANNEL)
    pk.data = struct.pack('<BHB', MISC_PERSISTENT_STORE, 5, status)
    cf.incoming.cb and [cb.callback(pk) for cb in list(cf.incoming.cb) if cb.port == CRTPPort.PARAM]


reply(0)          # first store succeeded
after_first = list(got)
reply(12)         # second store failed (ENOMEM)
print('after first reply :', after_first)
print('after second reply:', got)
ok = after_first == [('first', True)] and got == [('first', True), ('second', False)]
print('OK' if ok else 'DEFECT: replies are not attributed one-to-one to the outstanding requests')
try:
    p.param_updater.close()
except Exception:
    pass
sys.exit(0 if ok else 1)
