#!/usr/bin/env python3
"""Confirms every seeded change the way the brief describes: apply it to /repo itself (git apply), check that the demo fails and the
repository's tests still pass, run the listed checks (quick), undo it straight afterwards (git checkout -- .), and record the result
in seeded/<id>/meta.json.  /repo must be clean and nothing else may be using it while this runs.
usage: tools/seedconfirm.py [id ...]"""
import json
import os
import re
import subprocess
import sys
import time

ROOT = os.path.dirname(os.path.dirname(os.path.abspath(__file__)))


def sh(cmd, **kw):
    return subprocess.run(cmd, shell=True, capture_output=True, text=True, **kw)


def main():
    ids = sys.argv[1:] or sorted(d for d in os.listdir(os.path.join(ROOT, 'seeded')) if os.path.isdir(os.path.join(ROOT, 'seeded', d)))
    assert sh('git -C /repo status --porcelain').stdout.strip() == '', '/repo is not clean'
    for sid in ids:
        d = os.path.join(ROOT, 'seeded', sid)
        meta = json.load(open(os.path.join(d, 'meta.json')))
        demo = os.path.join(d, 'demo.py')
        env = dict(os.environ, OPENBLAS_CORETYPE='SkylakeX')
        # the demo imports cflib from its own directory first: run a copy placed in /repo's parent-independent temp dir with
        # PYTHONPATH pointing at /repo
        clean = subprocess.run(['/venv/bin/python', demo], cwd='/repo', env=dict(env, PYTHONPATH='/repo'), capture_output=True, text=True, timeout=600)
        r = sh(f'git -C /repo apply {d}/patch.diff')
        if r.returncode != 0:
            meta['confirmation'] = {'error': 'patch does not apply to /repo: ' + r.stderr[-300:]}
            json.dump(meta, open(os.path.join(d, 'meta.json'), 'w'), indent=1)
            print(sid, 'PATCH FAILED')
            continue
        try:
            mut = subprocess.run(['/venv/bin/python', demo], cwd='/repo', env=dict(env, PYTHONPATH='/repo'), capture_output=True, text=True, timeout=600)
            tests = sh('cd /repo && /venv/bin/python -m pytest -q -p no:cacheprovider test 2>&1 | tail -1', env=env).stdout.strip()
            checks = {}
            for pid in meta['checks_to_run']:
                t0 = time.time()
                c = sh(f'cd {ROOT} && VERIF_REPO=/repo ./check {pid} quick --no-selfcheck', timeout=7200)   # VERIF_REPO set: evidence/<id>.json is left alone
                viol = re.findall(r'^VIOLATION property=\S+ replay=.*/([^/]+)\.json$', c.stdout, re.M)
                harnesses = sorted({re.sub(r'-[0-9a-f]{10}$', '', v).split('-', 1)[1] for v in viol})
                checks[pid] = {'cmd': f'./check {pid} quick --no-selfcheck', 'exit': c.returncode, 'violating_harnesses': harnesses,
                               'wall_s': round(time.time() - t0), 'summary': c.stdout.strip().splitlines()[-1][:200] if c.stdout.strip() else ''}
                sh(f'rm -f {ROOT}/replays/{pid}-*')
        finally:
            sh('git -C /repo checkout -- .')
        meta['confirmation'] = {
            'how': 'git -C /repo apply patch.diff; demo; pytest; checks; git -C /repo checkout -- .',
            'demo_exit_unchanged': clean.returncode, 'demo_exit_with_change': mut.returncode,
            'repo_tests_with_change': tests, 'checks': checks,
            'detected': any(v['exit'] == 1 for v in checks.values()),
            'repo_head': sh('git -C /repo log -1 --format=%h').stdout.strip(),
        }
        json.dump(meta, open(os.path.join(d, 'meta.json'), 'w'), indent=1)
        print(sid, 'demo', clean.returncode, '->', mut.returncode, '|', tests, '|', {k: (v['exit'], v['violating_harnesses'][:3]) for k, v in checks.items()}, flush=True)
    assert sh('git -C /repo status --porcelain').stdout.strip() == '', '/repo left dirty!'


if __name__ == '__main__':
    main()
