#!/bin/bash
# usage: tools/seedcheck.sh <property> <patch.diff> <demo.py> [check args...]
# Confirms a seeded change in a scratch copy of /repo (never in /repo): demo passes on the clean copy and fails with the patch,
# the repository's tests still pass with the patch, then runs the property's quick check against the patched copy.
set -u
P=$1; PATCH=$(readlink -f "$2"); DEMO=$(readlink -f "$3"); shift 3
W=$(mktemp -d /tmp/seedcheck-XXXXXX)
git -C /repo archive HEAD | tar -x -C "$W"      # the committed tree, not the working tree (seedconfirm may have a patch applied there)
cd "$W"
cp "$DEMO" "$W/_demo.py"; DEMO="$W/_demo.py"      # run from the scratch copy so that ITS cflib is imported
/venv/bin/python "$DEMO" > "$W/demo_clean.log" 2>&1; c1=$?
patch -p1 -s < "$PATCH" || { echo "PATCH DOES NOT APPLY"; rm -rf "$W"; exit 2; }
/venv/bin/python "$DEMO" > "$W/demo_mut.log" 2>&1; c2=$?
t=$(OPENBLAS_CORETYPE=SkylakeX /venv/bin/python -m pytest -q -p no:cacheprovider test 2>&1 | tail -1)
echo "demo clean exit=$c1  demo mutated exit=$c2  tests: $t"
cd /verif
VERIF_REPO="$W" ./check "$P" quick --no-selfcheck "$@" > "$W/check.log" 2>&1; rc=$?
echo "check exit=$rc"
grep -E "^VIOLATION|^counterexample|HARNESS-ERROR|^PARTIAL" "$W/check.log" | cut -c1-400 | head -6
tail -1 "$W/check.log" | cut -c1-200
rm -f /verif/replays/"$P"-* 2>/dev/null
rm -rf "$W"
