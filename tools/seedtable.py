#!/usr/bin/env python3
"""Prints the markdown table 'which check catches which seeded change' from seeded/*/meta.json."""
import json
import os
ROOT = os.path.dirname(os.path.dirname(os.path.abspath(__file__)))
rows = []
for sid in sorted(os.listdir(os.path.join(ROOT, 'seeded'))):
    m = json.load(open(os.path.join(ROOT, 'seeded', sid, 'meta.json')))
    c = m.get('confirmation') or {}
    det = []
    for pid, r in (c.get('checks') or {}).items():
        if r['exit'] == 1:
            det.append(f"{pid}: " + ', '.join(r['violating_harnesses'][:3]) + ('…' if len(r['violating_harnesses']) > 3 else ''))
    first = open(os.path.join(ROOT, 'seeded', sid, 'notes.md')).read().strip().splitlines()[0].lstrip('# ').strip()
    status = 'not run' if not c else ('caught' if c.get('detected') else 'MISSED')
    rows.append(f"| {sid} | {first[:110]} | {c.get('demo_exit_unchanged', '?')}→{c.get('demo_exit_with_change', '?')} | {status} | {'; '.join(det) or '—'} | {m.get('history', '')} |")
print('| id | change (first line of its notes) | demo exit clean→changed | quick check | violating harnesses | history |')
print('|---|---|---|---|---|---|')
print('\n'.join(rows))
