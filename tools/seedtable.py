#!/usr/bin/env python3
"""Prints the markdown table 'which check catches which seeded change' from seeded/*/meta.json."""
import json
import os
ROOT = os.path.dirname(os.path.dirname(os.path.abspath(__file__)))
rows = []
for sid in sorted(d for d in os.listdir(os.path.join(ROOT, 'seeded')) if os.path.isdir(os.path.join(ROOT, 'seeded', d))):
    m = json.load(open(os.path.join(ROOT, 'seeded', sid, 'meta.json')))
    c = m.get('confirmation') or {}
    fe = m.get('first_evaluation') or {}
    det = []
    for pid, r in (c.get('checks') or {}).items():
        if r['exit'] == 1:
            det.append(f"{pid}: " + ', '.join(r['violating_harnesses'][:3]) + ('…' if len(r['violating_harnesses']) > 3 else ''))
    first = open(os.path.join(ROOT, 'seeded', sid, 'notes.md')).read().strip().splitlines()[0].lstrip('# ').strip()
    status = 'not run' if not c else ('caught' if c.get('detected') else 'MISSED')
    a = m.get('after_strengthening')
    if not c and a:
        status = 'caught (after strengthening)'
        det = [f"{k}: " + ', '.join(v[:3]) for k, v in a['violating_harnesses'].items()]
        c = {'demo_exit_unchanged': 0, 'demo_exit_with_change': 1}
    elif not c and fe:
        # round 5: evaluated with tools/seedcheck.sh (scratch copy); the summary lines of that run are kept in meta.json
        viol = [l for l in fe.get('summary', []) if l.startswith('VIOLATION')]
        status = 'caught (first evaluation)' if viol else 'MISSED (first evaluation)'
        det = [v.split('replays/')[-1].rsplit('-', 1)[0] for v in viol[:3]]
        c = {'demo_exit_unchanged': 0, 'demo_exit_with_change': 1}
    rows.append(f"| {sid} | {first[:110]} | {c.get('demo_exit_unchanged', '?')}→{c.get('demo_exit_with_change', '?')} | {status} | {'; '.join(det) or '—'} | {m.get('history', '')} |")
print('| id | change (first line of its notes) | demo exit clean→changed | quick check | violating harnesses | history |')
print('|---|---|---|---|---|---|')
print('\n'.join(rows))
