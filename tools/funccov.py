#!/usr/bin/env python3
"""Development aid: which functions of each property's anchor files were never entered by its quick check.
usage: VERIF_FUNCCOV=/tmp/cov/<P> ./check <P> quick ...; then tools/funccov.py /tmp/cov [repo]"""
import ast
import glob
import json
import os
import sys

root = sys.argv[1]
repo = sys.argv[2] if len(sys.argv) > 2 else '/repo'
props = {json.loads(l)['id']: json.loads(l) for l in open(os.path.join(os.path.dirname(__file__), '..', 'properties.jsonl'))}


def functions(path):
    out = []
    tree = ast.parse(open(path).read())

    def walk(node, prefix):
        for ch in ast.iter_child_nodes(node):
            if isinstance(ch, (ast.FunctionDef, ast.AsyncFunctionDef)):
                q = prefix + ch.name
                out.append(q)
                walk(ch, q + '.<locals>.')
            elif isinstance(ch, ast.ClassDef):
                walk(ch, prefix + ch.name + '.')
    walk(tree, '')
    return out


for pid in sorted(props):
    d = os.path.join(root, pid)
    if not os.path.isdir(d):
        continue
    seen = set()
    for f in glob.glob(os.path.join(d, '*.json')):
        seen |= {tuple(x) for x in json.load(open(f))['functions']}
    print(f'== {pid}')
    for af in props[pid]['anchors']['files']:
        p = os.path.join(repo, af)
        if not os.path.exists(p):
            continue
        fs = functions(p)
        missing = [q for q in fs if (af, q) not in seen and '<locals>' not in q]
        print(f'  {af}: {len(fs) - len(missing)}/{len(fs)} entered; never entered: {", ".join(missing) if missing else "-"}')
