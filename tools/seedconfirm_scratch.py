#!/usr/bin/env python3
"""Like seedconfirm.py, but in a scratch copy of /repo's committed tree (never touches /repo, so it can run while other checks use
/repo): demo on the clean copy, git apply of the patch, demo, the repository's tests, the quick check of every property in
meta.checks_to_run with VERIF_REPO pointing at the copy.  The result is recorded in seeded/<id>/meta.json under "confirmation".
usage: tools/seedconfirm_scratch.py id ..."""
import json
import os
import re
import shutil
import subprocess
import sys
import tempfile
import time

ROOT = os.path.dirname(os.path.dirname(os.path.abspath(__file__)))


def sh(cmd, **kw):
    return subprocess.run(cmd, shell=True, capture_output=True, text=True, **kw)


def main():
    for sid in sys.argv[1:]:
        d = os.path.join(ROOT, 'seeded', sid)
        meta = json.load(open(os.path.join(d, 'meta.json')))
        w = tempfile.mkdtemp(prefix='seedconfirm-', dir='/tmp')
        try:
            sh(f'git -C /repo archive HEAD | tar -x -C {w}')
            env = dict(os.environ, OPENBLAS_CORETYPE='SkylakeX', PYTHONPATH=w)
            shutil.copy(os.path.join(d, 'demo.py'), os.path.join(w, '_demo.py'))
            clean = subprocess.run(['/venv/bin/python', '_demo.py'], cwd=w, env=env, capture_output=True, text=True, timeout=600)
            r = sh(f'cd {w} && git init -q . && git apply {d}/patch.diff')
            if r.returncode != 0:
                meta['confirmation'] = {'error': 'patch does not apply: ' + r.stderr[-300:]}
                print(sid, 'PATCH FAILED')
            else:
                mut = subprocess.run(['/venv/bin/python', '_demo.py'], cwd=w, env=env, capture_output=True, text=True, timeout=600)
                tests = sh(f'cd {w} && /venv/bin/python -m pytest -q -p no:cacheprovider test 2>&1 | tail -1', env=env).stdout.strip()
                checks = {}
                for pid in meta['checks_to_run']:
                    t0 = time.time()
                    c = sh(f'cd {ROOT} && VERIF_REPO={w} ./check {pid} quick --no-selfcheck', timeout=7200)
                    viol = re.findall(r'^VIOLATION property=\S+ replay=.*/([^/]+)\.json$', c.stdout, re.M)
                    harnesses = sorted({re.sub(r'-[0-9a-f]{10}$', '', v).split('-', 1)[1] for v in viol})
                    checks[pid] = {'cmd': f'VERIF_REPO=<scratch copy> ./check {pid} quick --no-selfcheck', 'exit': c.returncode,
                                   'violating_harnesses': harnesses, 'wall_s': round(time.time() - t0),
                                   'summary': c.stdout.strip().splitlines()[-1][:200] if c.stdout.strip() else ''}
                    sh(f'rm -f {ROOT}/replays/{pid}-*')
                meta['confirmation'] = {
                    'how': 'scratch copy of /repo HEAD (git archive); demo; git apply patch.diff; demo; pytest; quick checks with VERIF_REPO',
                    'demo_exit_unchanged': clean.returncode, 'demo_exit_with_change': mut.returncode,
                    'repo_tests_with_change': tests, 'checks': checks,
                    'detected': any(v['exit'] == 1 for v in checks.values()),
                    'repo_head': sh('git -C /repo log -1 --format=%h').stdout.strip(),
                    'verif_head': sh(f'git -C {ROOT} log -1 --format=%h').stdout.strip(),
                }
                print(sid, 'demo', clean.returncode, '->', mut.returncode, '|', tests, '|',
                      {k: (v['exit'], v['violating_harnesses'][:3]) for k, v in checks.items()}, flush=True)
            json.dump(meta, open(os.path.join(d, 'meta.json'), 'w'), indent=1)
        finally:
            shutil.rmtree(w, ignore_errors=True)


if __name__ == '__main__':
    main()
