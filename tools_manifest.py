#!/usr/bin/env python3
"""Regenerates MANIFEST.json from the table below (kept in one place so it stays valid)."""
import json

TECH = 'symbolic execution of the real Python code (CrossHair as a library, own explorer + plugins) with z3/cvc5 deciding every path; exhaustive path enumeration within stated bounds'
CLAIMED = {
 'C07': dict(
  text='Bounded symbolic execution of the real dispatcher loop (_IncomingPacketHandler.run, add/remove_*_callback) and Caller: '
       'all 256 header bytes, registrations with fully symbolic port/mask/channel/mask, symbolic per-callback actions '
       '(raise, remove self, remove another, add) over 2-3 packets; z3 decides every path and the decision tree is exhausted.',
  note='Bounds: <=4 symbolic registrations, <=3 packets, one added registration; dispatch of one packet is not preempted. '
       'Trusted: CrossHair 0.0.110 + our bit-operation plugin (validated against CPython on every run), z3 5.1.',
  tech='symbolic execution of the real Python code (CrossHair as a library) + z3, exhaustive path enumeration within bounds',
  ref='DESIGN.md §3 C07'),

 'C08': dict(
  text='One harness per packet-emitting method (commander, high-level commander, localization, extpos, platform service, LPS anchor): '
       'all float arguments are arbitrary finite IEEE doubles, integer arguments range beyond their field, protocol version 0..20 and '
       'booleans symbolic; the emitted payload must equal, byte for byte, the reference encoding of the arguments under a firmware layout '
       'table, on the documented port/channel, <= 30 bytes, and unrepresentable arguments must raise with nothing sent. Header '
       'encode/decode over all 16x4 pairs and all 256 received header bytes.',
  note='Firmware layouts are a table in vf/props/c08.py written from the CRTP documentation (firmware sources are not available offline). '
       'NaN/inf arguments and the quaternion inside send_full_state_setpoint (C13) are outside. x-mode: one of roll/pitch symbolic at a time. '
       'Trusted: CrossHair, struct float32 model (validated against CPython each run), z3.',
  tech=TECH, ref='DESIGN.md §3 C08'),
 'C06': dict(
  text='Real Memory.read/write/_new_packet_cb/_handle_chan_* and _ReadRequest/_WriteRequest through the real Crazyflie.send_packet against '
       'a byte-array device model: symbolic addresses (32 bit), lengths across every 20/25-byte chunk boundary, symbolic contents, duplicated, '
       'late and error replies, link drop after the k-th reply, queued and superseded writes, MemoryTester, and the deck memory layer (DeckMemoryManager query / DeckMemory read / write with optional failure callbacks present or absent); asserts exact data, untouched '
       'bytes elsewhere, exactly one notification per request, write order, no lock or pending record left, follow-up requests served. write_steps decides one acknowledgement from an arbitrary progress state with a progress callback (covers multi-kilobyte writes).',
  note='Bounds per harness in evidence (lengths <= 63/77 end-to-end quick, <= 100 thorough; step harness covers arbitrary 32-bit progress state). '
       'Context switches only at blocking calls; two OS threads inside write() are outside. Aliased writes (same id+address outstanding twice) '
       'have unspecified data, only liveness is required.',
  tech=TECH, ref='DESIGN.md §3 C06'),
 'C18': dict(
  text='CPXPacket wire codec over all 65,536 routing-header pairs and enum combinations; SocketTransport write/read through a fake socket '
       'whose recv returns a solver-chosen number of bytes, for every fragmentation of 2-3 packet streams; CPXRouter stepped per packet '
       '(per-function FIFO, no cross delivery); CRTP tunnelling through TcpDriver/_CPXReceiveThread and the serial driver framing in both directions.',
  note='Payload lengths <= 3..6 and 2-3 packets per stream (bounds per harness in evidence); recv returning b\'\' / partial send / corrupted UART '
       'frames are outside. Packets arriving before a function queue exists are dropped by design (assumption).',
  tech=TECH, ref='DESIGN.md §3 C18'),
 'C19': dict(
  text='Real Swarm (sequential, parallel, parallel_safe, open_links/close_links, context manager) with swarm.Thread replaced by deferred tasks '
       'whose start/join order is chosen by the solver, symbolic failing subsets (action raises / link open fails), symbolic argument lists; '
       'also with the real SyncCrazyflie on a fake Crazyflie. Exactly-once, argument, ordering, join-before-return, raise-iff-failed with chained cause, '
       'close-all-on-failure and open-twice claims asserted on every schedule.',
  note='Swarm size <= 3 (quick) / 4 (thorough); switches only at Thread.start/join and between whole task bodies; for parallel_safe an args_dict lacking a URI '
       'is a precondition violation (for parallel it must not raise: parallel[call-level problems]); BaseException from actions and duplicate URIs are outside.',
  tech=TECH, ref='DESIGN.md §3 C19'),
 'C20': dict(
  text='RadioDriver.connect/parse_uri per URI shape with symbolic content (dongle id digits, channel digits, 1..10 hex address characters of either case, '
       'rate literals, rate-limit digits, serial-number ids) checked against the settings handed to the radio; scan_interface URIs parse back; '
       'the scheme guard of every driver is extracted from the current source, translated to a z3 regular expression and pairwise intersection '
       'emptiness is decided for unbounded strings; get_link_driver/open_link with fake drivers whose connect outcome is symbolic. Histories of init_drivers calls; serial-number URIs connected again after the dongle list changed (every explored history replayed on plain CPython as well, because the engine bypasses functools.lru_cache).',
  note='URI shape is enumerated (forked), content symbolic; string models for format/unhexlify/int(str,16) in vf/env/c20_env.py validated against CPython '
       'on every run; cflinkcpp and real USB enumeration outside; malformed-character harnesses enumerate 13 bad characters (labelled non-symbolic).',
  tech=TECH + '; z3 regular-expression emptiness queries generated from the source', ref='DESIGN.md §3 C20'),

 'C01': dict(
  text='The real _RadioDriverThread.run / _send_packet_safe / RadioDriver.send_packet / receive_packet run synchronously against a fake radio backed by '
       'a safelink peer model; per-transmission outcome {acked, uplink lost, ack lost} symbolic for k transmissions, uplink/downlink headers and payload bytes, '
       'submission times, start-up negotiation replies and the retry budget symbolic. Asserts exactly-once in-order delivery both ways with unchanged header/payload, '
       'byte-identical retransmission, link error exactly at the R-th consecutive unacknowledged transmission, safelink iff the exact echo was seen. Also: the shared dongle thread (_SharedRadio / _SharedRadioInstance: two links, answers attributed to their own transmission, solver-chosen expiring waits) and the USB-layer status byte decoding (Crazyradio.send_packet).',
  note='k <= 6 transmissions quick / 9 thorough, m <= 2/3 packets each way, payload <= 2 symbolic bytes. Peer model written from the safelink protocol (firmware not available offline). '
       'USB exceptions from the dongle, RadioManager sharing and rate-limit timing are outside.',
  tech=TECH, ref='DESIGN.md §3 C01'),
 'C03': dict(
  text='Inductive step of TocFetcher._new_packet_cb from an arbitrary fetcher state (table size up to 65535, requested index, reply ident/channel/type/name bytes symbolic) '
       'for both protocol generations and both tables, the info step, bounded downloads through the real dispatcher with duplicated and stale replies, element decoding over all '
       'type codes and name bytes, extended-type (persistence) fetch; table equals the device table and the three lookups agree. Also the protocol-generation negotiation of PlatformService under duplicated replies.',
  note='Step harness covers every table size incl. the 255/256 boundary; end-to-end downloads are bounded to <= 2 (quick) / 3-4 (thorough) entries plus concrete 255/257-entry witnesses. '
       'Names that become dict keys are chosen by the solver from fixed sharing patterns; all byte values/lengths are decided in the decode harnesses. Device model written from the CRTP TOC protocol.',
  tech=TECH, ref='DESIGN.md §3 C03'),
 'C05': dict(
  text='Log.add_config acceptance over symbolic periods, every fetch type and payload sizes around 26 bytes; create/append messages for V2 and V1 parsed by a firmware-side reference parser '
       '(symbolic idents, type nibbles, raw-memory addresses, up to 12/26 variables); log data decode with symbolic timestamp and payload bytes; lifecycle over solver-chosen enabled events '
       '(add, start, stop, delete, acks with status, disconnect, reconnect, re-add); SyncLogger iteration.',
  note='Bounds per harness in evidence (events <= 5 quick / 6-7 thorough). Periods decided with the real-number float model (int(p/10) == p//10 checked for the whole domain). '
       'MAX_BLOCKS accounting, V1 configurations with more than 14 variables and stale added/started flags after reconnect are outside the statement.',
  tech=TECH, ref='DESIGN.md §3 C05'),
 'C10': dict(
  text='A real Crazyflie driven through solver-chosen histories over the enabled events {send request with expected reply, retry timer fires, packet arrives, close_link, link error, open_link} '
       'with virtual timers; expected-reply bytes, received header and data bytes and needs_resending symbolic. Oracle from the statement: one retransmission of the same bytes per expiry at the '
       'request\'s own interval while unanswered, none after the answer, longest-prefix cancellation only, no timers on reliable links, nothing sent on a closed link, no transmission of a request in a later session. Also: packets through the real dispatcher with a port callback that re-issues the request (callback-send), two identical patterns pending and unanswered, and the real UsbDriver on a fake handle (nothing written after close, also when the close itself fails).',
  note='<= 2 (quick) / 3 (thorough) pending requests, 4-6 events, <= 3 sessions. _answer_patterns is an association list with == lookup inside the harness subclass (symbolic tuples as dict keys would be realised). '
       'Races between Timer.cancel() and an already running callback are outside.',
  tech=TECH, ref='DESIGN.md §3 C10'),
 'C11': dict(
  text='TocCache fetch/insert with fully symbolic 32-bit CRCs (file name rendering modelled nibble-wise, oracle reads the digits back), read-only/read-write directory combinations on an in-memory file system, '
       'field fidelity of _encoder/_decoder for both element classes with symbolic fields and wire bytes, cache use through the real TocFetcher incl. log/param CRC collisions, and truncation of real cache files '
       'at EVERY byte offset followed by fetch and a full reconnect.',
  note='crash[*] harnesses fork over the truncation offset value by value because the JSON scanner is C code (labelled symbolic=False, exhaustive over the offset). JSON\'s own round trip of leaf values and foreign files in the cache directory are outside.',
  tech=TECH, ref='DESIGN.md §3 C11'),
 'C12': dict(
  text='Bootloader._internal_flash page arithmetic with symbolic image length, page size class, buffer pages, flash pages, start page and override against a flash model that judges every write when it executes; '
       'end-to-end through the real Cloader.upload_buffer/write_flash with every image byte symbolic and lost/refused/duplicated flash-write replies; upload_buffer tiling (symbolic bytes, and all-0xFF vs pattern per 25-byte packet); write_flash retry protocol; Bootloader.start_bootloader + flash() with a release zip (with/without bootloader+softdevice update) against a two-target craft model whose nRF51 start page moves on restart.',
  note='Page sizes 1..4 (quick) / 1..8 and 1024 (thorough), <= 6-12 pages; refusal is asserted as no flash-write command reaching the target. Manifest variants other than v1, deck flashing, warm boot and loss of buffer-load packets are outside.',
  tech=TECH, ref='DESIGN.md §3 C12'),

 'C02': dict(
  text='SEQUENTIALISED connection lifecycle: a real Crazyflie (platform service, log, memory, param, TOC fetchers, link statistics, SyncCrazyflie) connected to a device model through a '
       'fake driver chosen by the real get_link_driver; every thread body is a task of one deterministic scheduler - in two engines: restart-stepped bodies, and real OS threads of which only the baton holder runs (a task keeps its stack across blocking calls). The solver chooses the kind and position of one or two deviations from the '
       'nominal schedule (link error from the driver task, link error raised inside link.send_packet while _send_lock is held, close_link, duplicated or held-back reply, ping task first) and the '
       'whole deviation space is exhausted. Asserts the callback grammar per attempt, no lock left held, no thread dead, no application call blocked for ever (incl. SyncCrazyflie.open_link/close_link), '
       'tables complete at connected, and that the same object connects again. The state promised by the statement is recorded at signalling time (tables complete at connected, a value for every device parameter at fully_connected); unsolicited value notifications from the firmware are one of the deviations.',
  note='RESTRICTED: context switches only at blocking calls (receive, queue get, lock acquire, sleep, join); free-running OS-thread interleavings and wall-clock bounds are outside solver-based checking here. '
       'All solver-chosen inputs are positions/kinds, so harnesses are labelled symbolic=False (exhaustive enumeration by the solver, real code under it). Tables: 1 log + 1-3 parameter entries; link without resend timers (C10).',
  tech='solver-enumerated deviation schedules over the real code (CrossHair as a library, z3 deciding feasibility of each fork); exhaustive within the stated bounds', ref='DESIGN.md §3 C02, §4'),
 'C04': dict(
  text='Param.set_value / get_value / update callbacks for every firmware type with symbolic idents, access bits, values (ints in +-2^70, every IEEE double) and device bit patterns, both protocol generations; '
       'set_value_raw layout; misc requests (persistent get_state/store/clear, default value) incl. three outstanding requests with symbolic idents and replies; the real _ParamUpdater and '
       '_ExtendedTypeFetcher stepped as tasks with solver-chosen schedules of issue / step / reply events, duplicated replies and unsolicited notifications.',
  note='<= 3 (quick) / 4 (thorough) requests per schedule; str() of a symbolic number is modelled by an injective numeric text (harness-side, symbolic mode only); preemption between bytecodes, FP16 reads and error replies to reads/writes are outside.',
  tech=TECH, ref='DESIGN.md §3 C04'),
 'C13': dict(
  text='Engine B (bit-precise interpretation of the current source over BV/IEEE terms, one solver query per control path): fp16_to_float over all 65,536 patterns against z3\'s native Float16, also through the '
       'lighthouse angle-stream decoder; decompress_quaternion per (largest index x sign) path against the firmware layout plus a lemma tying the arithmetic order to the specification value; compress_quaternion '
       '(normalised-input precondition): index/sign/magnitude layout on all paths and the non-linear 9-bit magnitude bounds; trajectory encoders; RGB565 in both LED memories (with a division lemma); '
       'Engine A: range reports, CompressedStart packing with overflow refusal.',
  note='compress_quaternion is decided for already-normalised inputs (norm replaced by 1.0, |sum of squares - 1| <= 1e-6); quick tier attempts 1 of the 24 magnitude-bound queries (about 4 min each for z3), thorough all. '
       'compress o decompress composition is argued in DESIGN, not solved. numpy summation order inside np.linalg.norm is outside. Translator validated against the real functions on concrete vectors every run.',
  tech='AST -> SMT (bit-vector + IEEE floating point) translation of the real functions regenerated on every run, z3/cvc5 queries per control path; CrossHair for the byte-level packers', ref='DESIGN.md §3 C13'),
 'C14': dict(
  text='EEPROM image validity <=> token and checksum over the version-selected range with all 21 bytes symbolic, single-byte corruption, write/read round trip (float32 trims bit-exact, 40-bit address); '
       '1-wire images with symbolic header, element contents and CRC bytes (CRC-32 modelled symbolically), round trip and validity; lighthouse geometry/calibration memory layout and YAML file objects; '
       'parameter files; Poly4D, compressed trajectory, LED timing layouts; deck-memory info sections; loco anchor lists. LighthouseConfigWriter re-configuring a device that already holds valid base stations (all others invalidated, one persist request).',
  note='Element ids/lengths and which float is symbolic are forked, contents symbolic; PyYAML and the file system are replaced by lossless stores; NaN/inf and unknown 1-wire element ids are outside.',
  tech=TECH, ref='DESIGN.md §3 C14'),
 'C15': dict(
  text='Two groups of harnesses on the real code. (1) Rigid-motion laws of Pose on numpy object arrays of symbolic reals: inverse (point and pose), associativity, composition == sequential application, '
       'composition stays orthonormal, scaling, input immutability: non-linear real arithmetic obligations proved through chains of small lemmas (z3, cvc5 as fallback). '
       '(2) LighthouseBsVector conversions in the field of view (|angles| <= 0.98 rad): V1 angles <-> projection, V1 angles <-> Cartesian (unit length, forward, from_cart of any length), '
       'V1 -> V2 -> V1 and V2 -> V1 -> V2, sign conventions; decided over the reals with ABSTRACT trigonometry: math.tan/atan/atan2/asin/sin/cos are uninterpreted functions constrained by ground '
       'instances of standard identities (vf/plugins/trig.py), each conversion law proved by a harness-side chain of solver-discharged links.',
  note='Decided over the reals (float32/float64 rounding outside). The trigonometric identities instantiated by the plugin are trusted mathematics (listed in vf/plugins/trig.py); a counterexample under the abstraction '
       'is reported only if it reproduces with libm. Rotation-vector/quaternion views (compiled scipy), directions outside the field of view and the geometry solver\'s vectorised numpy projection are NOT decided. '
       'Orthogonal matrices are 9 reals with R^T R = I (and R R^T = I where the row form is needed).',
  tech='symbolic execution of the real Python/numpy code (CrossHair real-number model; trigonometric functions as uninterpreted functions with ground identity instances) + NRA/UF obligations discharged by z3/cvc5', ref='DESIGN.md §3 C15, §4, §7.10'),
 'C16': dict(
  text='RESTRICTED to everything around the optimiser: with _find_transformation stubbed by an arbitrary symbolic transformation, align applies the one returned transformation to every base station, '
       'the returned transformation is flips o raw, rigid application preserves distances and relative orientation, the de-flip decision logic meets its postconditions, _scale_system multiplies every translation '
       'by the one factor and leaves rotations and inputs untouched, scale_fixed_point\'s factor is correct, intersection points lie on ray and plane.',
  note='That the least-squares search converges for misalignments below 30 degrees is NOT decided (compiled scipy optimiser). pi-flips are scipy\'s float matrices (1e-9 slack in the de-flip postconditions).',
  tech='symbolic execution of the real numpy code on object arrays (CrossHair real-number model) + NRA obligations discharged by z3/cvc5', ref='DESIGN.md §3 C16, §4'),
 'C17': dict(
  text='MotionCommander and PositionHlCommander with a virtual clock (symbolic start instant), the real _SetPointThread stepped as a task under eager and lazy schedules, recording commanders; programs of 1-2 (quick) / 3-4 '
       '(thorough) primitives with solver-chosen kinds and symbolic real distances, angles, (in thorough) velocities, and an exception flag. Asserts stop then notify-stop at the end with nothing after, stream period, '
       'height integration, velocity x time == displacement, reported position and go_to targets/durations.',
  note='Decided over the reals (float rounding of the height integration is outside); primitives last <= 6 update periods (<= 3 for pairs); negative velocities/rates are outside.',
  tech=TECH, ref='DESIGN.md §3 C17'),
}
NOT_YET = {}
NOT_APPLICABLE = {
 'C09': 'numerical result of IPPE (eig/SVD), clustering and scipy least_squares in compiled numpy/scipy kernels: cannot be executed symbolically or encoded for an SMT solver with the installed tools (DESIGN.md §4)',
}


def main():
    props = [json.loads(l)['id'] for l in open('properties.jsonl')]
    checks = []
    for pid in props:
        if pid in CLAIMED:
            c = CLAIMED[pid]
            checks.append({
                'property_id': pid,
                'quick_cmd': f'./check {pid} quick',
                'thorough_cmd': f'./check {pid} thorough',
                'evidence_file': f'evidence/{pid}.json',
                'replay_cmd_template': f'./check {pid} --replay {{path}}',
                'engine': 'vf',
                'level_claimed': {'category': 'other', 'text': c['text'], 'design_ref': c['ref']},
                'level_note': c['note'],
                'technique': c['tech'],
            })
    na = []
    for pid in props:
        if pid in CLAIMED:
            continue
        if pid in NOT_APPLICABLE:
            na.append({'property_id': pid, 'reason': NOT_APPLICABLE[pid]})
        else:
            na.append({'property_id': pid, 'reason': NOT_YET.get(pid, 'check not built yet in this session (planned, see DESIGN.md §3); no claim is made')})
    m = {
        'version': 1,
        'setup_cmd': './setup.sh',
        'hooks': {'guard': 'CFLIB_VERIF', 'enable': 'no hooks in /repo: all instrumentation is harness-side name replacement',
                  'baseline_off_cmd': 'cd /repo && /venv/bin/python -m pytest -ra -q -p no:cacheprovider --timeout=900 --continue-on-collection-errors',
                  'source_commits': [], 'add_only': True},
        'engines': [{'name': 'vf', 'path': 'vf/', 'serves_properties': sorted(CLAIMED),
                     'kind_free_text': 'Engine A: CrossHair 0.0.110 driven as a library by vf/explore.py (own explorer, plugins for bit ops, '
                                       'struct floats, CRC-32, sqrt) with z3 5.1 and cvc5 1.4 as portfolio; Engine B: vf/py2smt AST->SMT-LIB '
                                       'translation of numeric kernels'}],
        'checks': checks,
        'not_applicable': na,
        'notes': 'Exit codes: 0 held within stated bounds (or only listed known findings), 1 VIOLATION (replayed concretely), '
                 '3 harness error. Evidence says per harness whether its decision tree was exhausted.',
    }
    json.dump(m, open('MANIFEST.json', 'w'), indent=1)
    print('claimed', sorted(CLAIMED), 'n/a', [x['property_id'] for x in na])


if __name__ == '__main__':
    main()
