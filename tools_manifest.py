#!/usr/bin/env python3
"""Regenerates MANIFEST.json from the table below (kept in one place so it stays valid)."""
import json

CLAIMED = {
 'C07': dict(
  text='Bounded symbolic execution of the real dispatcher loop (_IncomingPacketHandler.run, add/remove_*_callback) and Caller: '
       'all 256 header bytes, registrations with fully symbolic port/mask/channel/mask, symbolic per-callback actions '
       '(raise, remove self, remove another, add) over 2-3 packets; z3 decides every path and the decision tree is exhausted.',
  note='Bounds: <=4 symbolic registrations, <=3 packets, one added registration; dispatch of one packet is not preempted. '
       'Trusted: CrossHair 0.0.110 + our bit-operation plugin (validated against CPython on every run), z3 5.1.',
  tech='symbolic execution of the real Python code (CrossHair as a library) + z3, exhaustive path enumeration within bounds',
  ref='DESIGN.md §3 C07'),
}
NOT_YET = {}
NOT_APPLICABLE = {
 'C09': 'numerical result of IPPE (eig/SVD), clustering and scipy least_squares in compiled numpy/scipy kernels: cannot be executed symbolically or encoded for an SMT solver with the installed tools (DESIGN.md §4)',
}


def main():
    props = [json.loads(l)['id'] for l in open('properties.jsonl')]
    checks = []
    for pid in props:
        if pid in CLAIMED:
            c = CLAIMED[pid]
            checks.append({
                'property_id': pid,
                'quick_cmd': f'./check {pid} quick',
                'thorough_cmd': f'./check {pid} thorough',
                'evidence_file': f'evidence/{pid}.json',
                'replay_cmd_template': f'./check {pid} --replay {{path}}',
                'engine': 'vf',
                'level_claimed': {'category': 'other', 'text': c['text'], 'design_ref': c['ref']},
                'level_note': c['note'],
                'technique': c['tech'],
            })
    na = []
    for pid in props:
        if pid in CLAIMED:
            continue
        if pid in NOT_APPLICABLE:
            na.append({'property_id': pid, 'reason': NOT_APPLICABLE[pid]})
        else:
            na.append({'property_id': pid, 'reason': NOT_YET.get(pid, 'check not built yet in this session (planned, see DESIGN.md §3); no claim is made')})
    m = {
        'version': 1,
        'setup_cmd': './setup.sh',
        'hooks': {'guard': 'CFLIB_VERIF', 'enable': 'no hooks in /repo: all instrumentation is harness-side name replacement',
                  'baseline_off_cmd': 'cd /repo && /venv/bin/python -m pytest -ra -q -p no:cacheprovider --timeout=900 --continue-on-collection-errors',
                  'source_commits': [], 'add_only': True},
        'engines': [{'name': 'vf', 'path': 'vf/', 'serves_properties': sorted(CLAIMED),
                     'kind_free_text': 'Engine A: CrossHair 0.0.110 driven as a library by vf/explore.py (own explorer, plugins for bit ops, '
                                       'struct floats, CRC-32, sqrt) with z3 5.1 and cvc5 1.4 as portfolio; Engine B: vf/py2smt AST->SMT-LIB '
                                       'translation of numeric kernels'}],
        'checks': checks,
        'not_applicable': na,
        'notes': 'Exit codes: 0 held within stated bounds (or only listed known findings), 1 VIOLATION (replayed concretely), '
                 '3 harness error. Evidence says per harness whether its decision tree was exhausted.',
    }
    json.dump(m, open('MANIFEST.json', 'w'), indent=1)
    print('claimed', sorted(CLAIMED), 'n/a', [x['property_id'] for x in na])


if __name__ == '__main__':
    main()
