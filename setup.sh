#!/bin/sh
# Offline setup: overlay venv on top of /venv (repo deps) + crosshair-tool, z3-solver, cvc5 from the wheelhouse.
set -e
cd "$(dirname "$0")"
V=.venv
if [ -x "$V/bin/python" ] && "$V/bin/python" -c 'import crosshair, z3, cvc5, numpy, cflib' >/dev/null 2>&1; then
  exit 0
fi
rm -rf "$V"
/venv/bin/python -m venv "$V"
SP=$("$V/bin/python" -c 'import sysconfig; print(sysconfig.get_paths()["purelib"])')
printf '%s\n%s\n' "import site; site.addsitedir('/venv/lib/python3.12/site-packages')" "/repo" > "$SP/base.pth"
PIP_NO_INDEX=1 "$V/bin/pip" install -q --no-index --find-links /opt/veriftools/wheels crosshair-tool cvc5 >/dev/null
"$V/bin/python" -c 'import crosshair, z3, cvc5, numpy, cflib; print("verif venv ok", z3.get_version_string())'
